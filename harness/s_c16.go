package main

import (
	"fmt"
	"math"
	"strings"

	d "github.com/ostafen/clover/v2/document"
	"github.com/ostafen/clover/v2/query"
)

func init() { streams["C16"] = streamC16 }

func safeSatisfy(c query.Criteria, doc *d.Document) (res bool, pan string) {
	defer func() {
		if r := recover(); r != nil {
			pan = fmt.Sprint(r)
		}
	}()
	return c.Satisfy(doc), ""
}

// goKinds returns the same number in several Go numeric kinds (nil when the value is not a small integer).
func goKinds(v interface{}) []interface{} {
	n, ok := v.(int64)
	if !ok || n < 0 || n > 100 {
		return nil
	}
	return []interface{}{int(n), int8(n), int16(n), int32(n), int64(n), uint(n), uint8(n), uint16(n), uint32(n), uint64(n), float32(n), float64(n)}
}

func streamC16(c *Ctx) {
	c.Rule = "criteria trees (depth<=4 quick, <=6 thorough; every leaf operator; literal, nil, Field(f) and \"$f\" operands incl. references to absent fields) x documents over the mixed-type schema: Satisfy on the real code vs Lean sat; " +
		"on the implementation: Not/And/Or truth tables, De Morgan, double negation, Neq=Not(Eq), NotExists=Not(Exists), Exists=Has, and the same number supplied in 12 Go numeric kinds gives the same result; non-trivial = distinct (criteria, document) pairs; selectivity recorded"
	dr := StartDriver(c.DriverBin)
	defer dr.Close()
	dm := Domain{}
	n := c.N(6000, 150000)
	depth := 4
	if !c.Quick() {
		depth = 6
	}
	im := NewImpl("badger-mem", c.Scratch)
	defer im.Destroy()
	var batchDocs []*d.Document
	var batchCrits []query.Criteria
	var batchLines []J
	flush := func() bool {
		if len(batchDocs) == 0 {
			return true
		}
		ok := c16ThroughDB(c, im, batchDocs, batchCrits, batchLines)
		batchDocs, batchCrits, batchLines = nil, nil, nil
		return ok
	}
	if !c16FractionalKinds(c, im) {
		return
	}
	modelOff := false
	for i := 0; i < n; i++ {
		g := NewGen(c.Rng, dm)
		h := NewHistGen(g, 1, depth)
		docM := h.Doc(fixedId(i))
		if g.pick(3) == 0 {
			arr := []interface{}{}
			for k := g.pick(4); k > 0; k-- {
				arr = append(arr, h.val())
			}
			docM["arr"] = arr
		}
		doc := d.NewDocumentOf(docM)
		cj := h.Crit(g.pick(depth + 1))
		cr := decCrit(cj)
		batchDocs = append(batchDocs, doc)
		batchCrits = append(batchCrits, cr)
		batchLines = append(batchLines, J{"k": "sat", "crit": cj, "doc": encDoc(docM)})
		if len(batchDocs) == 24 {
			if !flush() {
				return
			}
		}
		if !c16ListLaws(c, dr, h, g, docM, doc) {
			return
		}
		line := J{"k": "sat", "crit": cj, "doc": encDoc(docM)}
		c.Evals++
		r, pan := safeSatisfy(cr, doc)
		if pan != "" {
			c.Violation(&Replay{Stream: "sat", Case: []interface{}{line}, Actual: []string{"panic " + pan}, Note: "Satisfy panicked"})
			return
		}
		c.Count("shape:" + critShape(cj)[:min(len(critShape(cj)), 3)])
		c.Count("sat:" + b01(r))
		c.NonTrivial(fmt.Sprint(cj) + canonDoc(docM))
		// a field reference may be spelled Field("f") or "$f", in any operand position (single operands and the lists of In /
		// Contains): the criterion with every "$f" replaced by Field("f") answers the same (no model involved)
		if tw, changed := refTwin(cj); changed {
			rt, panT := safeSatisfy(decCrit(tw.(J)), doc)
			c.Count("dollar-reference-twin")
			if panT != "" || rt != r {
				c.Violation(&Replay{Stream: "sat", Case: []interface{}{line, J{"k": "sat", "crit": tw, "doc": encDoc(docM)}}, Expected: []string{b01(r)}, Actual: []string{b01(rt), panT},
					Note: "a \"$f\" operand and the Field(\"f\") operand it stands for give different answers"})
				return
			}
		}
		if !modelOff {
			m := dr.Ask(line)
			if m != b01(r) {
				// recorded once; the laws of the property itself go on being checked on the implementation
				c.Unexplained(&Replay{Stream: "sat", Case: []interface{}{line}, Expected: []string{m}, Actual: []string{b01(r)}}, "correspondence K-C16/sat")
				modelOff = true
			}
		}
		// Boolean laws on the implementation
		cj2 := h.Crit(g.pick(3))
		c2 := decCrit(cj2)
		r2, _ := safeSatisfy(c2, doc)
		laws := []struct {
			name string
			got  query.Criteria
			want bool
		}{
			{"not", cr.Not(), !r},
			{"double negation", cr.Not().Not(), r},
			{"and", cr.And(c2), r && r2},
			{"or", cr.Or(c2), r || r2},
			{"de morgan and", cr.And(c2).Not(), !r || !r2},
			{"de morgan or", cr.Or(c2).Not(), !r && !r2},
		}
		for _, l := range laws {
			got, pan := safeSatisfy(l.got, doc)
			if pan != "" || got != l.want {
				c.Violation(&Replay{Stream: "sat", Case: []interface{}{line, J{"k": "sat", "crit": cj2, "doc": encDoc(docM)}}, Expected: []string{fmt.Sprint(l.want)}, Actual: []string{fmt.Sprint(got), pan}, Note: "Boolean law violated: " + l.name})
				return
			}
		}
		// leaf laws
		f := h.field()
		v := h.val()
		ex, _ := safeSatisfy(query.Field(f).Exists(), doc)
		nex, _ := safeSatisfy(query.Field(f).NotExists(), doc)
		if ex != doc.Has(f) || nex == ex {
			c.Violation(&Replay{Stream: "sat", Case: []interface{}{J{"k": "sat", "crit": J{"exists": hx(f)}, "doc": encDoc(docM)}}, Note: "Exists must mean 'the field is present' and NotExists its negation"})
			return
		}
		// the named builders are the criteria they abbreviate, on documents holding each of the values they mention
		for _, fv := range []interface{}{"keep", true, false, nil, int64(1)} {
			dv := doc
			if fv != "keep" {
				dv = doc.Copy()
				dv.Set(f, fv)
			}
			sat := func(cr query.Criteria) bool { r, _ := safeSatisfy(cr, dv); return r }
			fld := query.Field(f)
			bad := ""
			switch {
			case sat(fld.IsTrue()) != sat(fld.Eq(true)):
				bad = "IsTrue is not Eq(true)"
			case sat(fld.IsFalse()) != sat(fld.Eq(false)):
				bad = "IsFalse is not Eq(false)"
			case sat(fld.IsNil()) != sat(fld.Eq(nil)):
				bad = "IsNil is not Eq(nil)"
			case sat(fld.IsNilOrNotExists()) != (sat(fld.Eq(nil)) || !dv.Has(f)):
				bad = "IsNilOrNotExists is not IsNil Or NotExists"
			case sat(fld.IsTrue()) != (dv.Has(f) && dv.Get(f) == true):
				bad = "IsTrue does not hold exactly on documents whose field is true"
			case sat(fld.IsFalse()) != (dv.Has(f) && dv.Get(f) == false):
				bad = "IsFalse does not hold exactly on documents whose field is false"
			}
			if bad != "" {
				c.Violation(&Replay{Stream: "sat", Case: []interface{}{J{"k": "sat", "crit": J{"exists": hx(f)}, "doc": encDoc(dv.AsMap())}}, Note: bad})
				return
			}
		}
		eq, _ := safeSatisfy(query.Field(f).Eq(v), doc)
		neq, _ := safeSatisfy(query.Field(f).Neq(v), doc)
		if eq == neq {
			c.Violation(&Replay{Stream: "sat", Case: []interface{}{J{"k": "sat", "crit": J{"cmp": []interface{}{"eq", hx(f), J{"lit": encValue(v)}}}, "doc": encDoc(docM)}}, Note: "Neq must be Not(Eq)"})
			return
		}
		// literal kind invariance
		if ks := goKinds(v); ks != nil {
			for _, opn := range []string{"eq", "gt", "le", "in", "contains"} {
				var base bool
				for ki, kv := range ks {
					var cc query.Criteria
					switch opn {
					case "eq":
						cc = query.Field(f).Eq(kv)
					case "gt":
						cc = query.Field(f).Gt(kv)
					case "le":
						cc = query.Field(f).LtEq(kv)
					case "in":
						cc = query.Field(f).In(kv, "zz")
					case "contains":
						cc = query.Field("arr").Contains(kv)
					}
					got, pan := safeSatisfy(cc, doc)
					c.Evals++
					if pan != "" {
						c.Violation(&Replay{Stream: "sat", Case: []interface{}{line}, Actual: []string{"panic " + pan}, Note: fmt.Sprintf("%s with a literal of Go kind %T panics", opn, kv)})
						return
					}
					if ki == 0 {
						base = got
					} else if got != base {
						c.Violation(&Replay{Stream: "sat", Case: []interface{}{J{"k": "sat", "crit": J{"cmp": []interface{}{"eq", hx(f), J{"lit": encValue(v)}}}, "doc": encDoc(docM)}},
							Note: fmt.Sprintf("%s(%v): literal of Go kind %T gives %v, kind int gives %v", opn, v, kv, got, base)})
						return
					}
				}
			}
			c.Count("kinds-checked")
		}
		if i < 2 {
			c.Sample(line)
		}
	}
	flush()
}

// c16ListLaws: In(e1..en) holds iff some ei equals the field value, Contains(e1..en) iff every ei occurs in
// the array - with lists that repeat elements, repeat them under other Go kinds, mix in field references and
// draw from the document's own values (so that the laws are exercised on both outcomes).
func c16ListLaws(c *Ctx, dr *Driver, h *HistGen, g *Gen, docM map[string]interface{}, doc *d.Document) bool {
	pool := []interface{}{}
	if a, ok := docM["arr"].([]interface{}); ok {
		pool = append(pool, a...)
	}
	for _, f := range []string{"x", "y"} {
		if v, ok := docM[f]; ok {
			pool = append(pool, v)
		}
	}
	pool = append(pool, h.val(), nil)
	n := 1 + g.pick(4)
	if g.pick(5) == 0 {
		n = 12 + g.pick(30) // long lists
	}
	var xs []interface{} // Go operands
	var xj []interface{} // protocol operands
	for k := 0; k < n; k++ {
		var v interface{}
		if k > 0 && g.pick(3) == 0 {
			v = xs[g.pick(len(xs))] // repeat an earlier element
			if ks := goKinds(v); ks != nil {
				v = ks[g.pick(len(ks))]
			}
			if _, isRef := v.(string); isRef {
				// keep "$f" spellings as they are
			}
		} else if g.pick(8) == 0 {
			v = "$" + []string{"x", "y", "zz"}[g.pick(3)]
		} else {
			v = pool[g.pick(len(pool))]
		}
		xs = append(xs, v)
		xj = append(xj, J{"lit": encValue(normKind(v))})
	}
	for _, f := range []string{"arr", "x"} {
		all, any := true, false
		for _, e := range xs {
			r1, p1 := safeSatisfy(query.Field(f).Contains(e), doc)
			r2, p2 := safeSatisfy(query.Field(f).In(e), doc)
			// a list of one value is a list: naming the value twice changes nothing
			if r3, p3 := safeSatisfy(query.Field(f).In(e, e), doc); p3 != "" || r3 != r2 {
				c.Violation(&Replay{Stream: "sat", Case: []interface{}{J{"k": "sat", "crit": J{"in": []interface{}{hx(f), xj}}, "doc": encDoc(docM)}}, Expected: []string{b01(r3)}, Actual: []string{b01(r2), p3},
					Note: fmt.Sprintf("In(e) and In(e, e) differ on field %s for e = %v", f, e)})
				return false
			}
			if p1 != "" || p2 != "" {
				c.Violation(&Replay{Stream: "sat", Case: []interface{}{J{"k": "sat", "crit": J{"contains": []interface{}{hx(f), xj}}, "doc": encDoc(docM)}}, Actual: []string{"panic " + p1 + p2}, Note: "Contains/Eq panicked"})
				return false
			}
			all = all && r1
			any = any || r2
		}
		gotC, _ := safeSatisfy(query.Field(f).Contains(xs...), doc)
		gotI, _ := safeSatisfy(query.Field(f).In(xs...), doc)
		c.Evals += 2
		c.Count("list-law:contains=" + b01(gotC))
		c.Count("list-law:in=" + b01(gotI))
		lineC := J{"k": "sat", "crit": J{"contains": []interface{}{hx(f), xj}}, "doc": encDoc(docM)}
		lineI := J{"k": "sat", "crit": J{"in": []interface{}{hx(f), xj}}, "doc": encDoc(docM)}
		if gotC != all {
			c.Violation(&Replay{Stream: "sat", Case: []interface{}{lineC}, Expected: []string{b01(all)}, Actual: []string{b01(gotC)},
				Note: "Contains(e1..en) must hold iff every ei is contained (Contains(e1) And ... And Contains(en))"})
			return false
		}
		if gotI != any {
			c.Violation(&Replay{Stream: "sat", Case: []interface{}{lineI}, Expected: []string{b01(any)}, Actual: []string{b01(gotI)},
				Note: "In(e1..en) must hold iff the field compares equal to some ei (In(e1) Or ... Or In(en))"})
			return false
		}
		// the "$f" elements of the lists replaced by Field("f"): the same answers
		for _, pr := range []struct {
			line J
			got  bool
		}{{lineC, gotC}, {lineI, gotI}} {
			if tw, changed := refTwin(pr.line["crit"]); changed {
				rt, panT := safeSatisfy(decCrit(tw.(J)), doc)
				c.Count("dollar-reference-twin")
				if panT != "" || rt != pr.got {
					c.Violation(&Replay{Stream: "sat", Case: []interface{}{pr.line, J{"k": "sat", "crit": tw, "doc": encDoc(docM)}}, Expected: []string{b01(pr.got)}, Actual: []string{b01(rt), panT},
						Note: "a \"$f\" element of an In / Contains list and the Field(\"f\") it stands for give different answers"})
					return false
				}
			}
		}
		if m := dr.Ask(lineC); m != b01(gotC) {
			c.Unexplained(&Replay{Stream: "sat", Case: []interface{}{lineC}, Expected: []string{m}, Actual: []string{b01(gotC)}}, "correspondence K-C16/sat")
			return false
		}
		if m := dr.Ask(lineI); m != b01(gotI) {
			c.Unexplained(&Replay{Stream: "sat", Case: []interface{}{lineI}, Expected: []string{m}, Actual: []string{b01(gotI)}}, "correspondence K-C16/sat")
			return false
		}
	}
	return true
}

// normKind maps a Go number of any kind to the canonical kind the protocol carries
func normKind(v interface{}) interface{} {
	switch n := v.(type) {
	case int:
		return int64(n)
	case int8:
		return int64(n)
	case int16:
		return int64(n)
	case int32:
		return int64(n)
	case uint:
		return uint64(n)
	case uint8:
		return uint64(n)
	case uint16:
		return uint64(n)
	case uint32:
		return uint64(n)
	case float32:
		return float64(n)
	}
	return v
}

// c16ThroughDB: the criteria evaluated directly (Satisfy) and through the database (FindAll, which first
// normalises the criteria) must select the same documents.
func c16ThroughDB(c *Ctx, im *Impl, docs []*d.Document, crits []query.Criteria, lines []J) bool {
	coll := "c16"
	db := im.db
	if ok, _ := db.HasCollection(coll); ok {
		db.DropCollection(coll)
	}
	if err := db.CreateCollection(coll); err != nil {
		return true
	}
	if err := db.Insert(coll, docs...); err != nil {
		return true // a generated document the database refuses (not this stream's subject)
	}
	for ci, cr := range crits {
		var got []*d.Document
		var err error
		pan := ""
		func() {
			defer func() {
				if r := recover(); r != nil {
					pan = fmt.Sprint(r)
				}
			}()
			got, err = db.FindAll(query.NewQuery(coll).Where(cr))
		}()
		if pan != "" {
			c.Violation(&Replay{Stream: "sat", Case: []interface{}{lines[ci]}, Actual: []string{"panic " + pan}, Note: "FindAll with this criteria panicked"})
			return false
		}
		if err != nil {
			continue
		}
		sel := map[string]bool{}
		for _, g := range got {
			sel[g.ObjectId()] = true
		}
		for di, doc := range docs {
			want, _ := safeSatisfy(cr, doc)
			c.Evals++
			if sel[doc.ObjectId()] != want {
				c.Count("through-db:mismatch")
				c.Violation(&Replay{Stream: "sat", Case: []interface{}{J{"k": "sat", "crit": lines[ci]["crit"], "doc": lines[di]["doc"]}},
					Expected: []string{b01(want)}, Actual: []string{b01(sel[doc.ObjectId()])},
					Note: "the criteria selects this document when evaluated directly (Satisfy) but not through FindAll, or conversely: literal normalisation changed its meaning"})
				return false
			}
		}
		c.Count("through-db:criteria")
	}
	return true
}

func min(a, b int) int {
	if a < b {
		return a
	}
	return b
}

// refTwin: the criterion (JSON form) with every string operand "$name" replaced by the field reference it stands for
// (strings.TrimLeft(s, "$"), as getFieldOrValue reads it); Like patterns are not operands. changed=false when there is none.
func refTwin(j interface{}) (interface{}, bool) {
	switch v := j.(type) {
	case map[string]interface{}: // J is an alias of this type
		if lit, ok := v["lit"]; ok && len(v) == 1 {
			if lm, ok := lit.(map[string]interface{}); ok {
				if sx, ok := lm["s"].(string); ok && strings.HasPrefix(sx, "24") {
					name := strings.TrimLeft(unhx(sx), "$")
					return J{"ref": hx(name)}, true
				}
			}
			return J(v), false
		}
		out := J{}
		changed := false
		for k, e := range v {
			if k == "like" {
				out[k] = e
				continue
			}
			ne, ch := refTwin(e)
			out[k] = ne
			changed = changed || ch
		}
		return out, changed
	case []interface{}:
		out := make([]interface{}, len(v))
		changed := false
		for i, e := range v {
			ne, ch := refTwin(e)
			out[i] = ne
			changed = changed || ch
		}
		return out, changed
	}
	return j, false
}

// c16FractionalKinds: literal-kind invariance for numbers with a fraction: a float32 literal denotes the number it holds
// (float64(f32), e.g. 0.10000000149011612 for float32(0.1)), so every comparison gives the same answer for the float32
// literal and for that float64 - on documents holding exactly that number, the decimal it was written from (0.1), and
// the float64 neighbours of both; through Satisfy and through the database (which normalises the criteria first).
func c16FractionalKinds(c *Ctx, im *Impl) bool {
	db := im.db
	coll := "fk"
	if ok, _ := db.HasCollection(coll); ok {
		db.DropCollection(coll)
	}
	db.CreateCollection(coll)
	db.CreateIndex(coll, "v")
	decs := []float64{0.1, 0.3, 0.001, 1.1, -0.7, 2.5, 16777217, 1e-40}
	docs := []*d.Document{}
	n := 0
	for _, x := range decs {
		w := float64(float32(x))
		for _, v := range []float64{x, w, math.Nextafter(w, 2*w), math.Nextafter(w, -2*w), math.Nextafter(x, 2*x)} {
			n++
			docs = append(docs, d.NewDocumentOf(map[string]interface{}{"_id": fixedId(695000 + n), "v": v, "arr": []interface{}{v, "s"}}))
		}
	}
	if err := db.Insert(coll, docs...); err != nil {
		panic(err)
	}
	for _, x := range decs {
		f32 := float32(x)
		f64 := float64(f32)
		mk := func(op string, lit interface{}) query.Criteria {
			switch op {
			case "eq":
				return query.Field("v").Eq(lit)
			case "neq":
				return query.Field("v").Neq(lit)
			case "gt":
				return query.Field("v").Gt(lit)
			case "ge":
				return query.Field("v").GtEq(lit)
			case "lt":
				return query.Field("v").Lt(lit)
			case "le":
				return query.Field("v").LtEq(lit)
			case "in":
				return query.Field("v").In("zz", lit)
			}
			return query.Field("arr").Contains(lit)
		}
		for _, op := range []string{"eq", "neq", "gt", "ge", "lt", "le", "in", "contains"} {
			c.Evals++
			for _, doc := range docs {
				a, pa := safeSatisfy(mk(op, f32), doc)
				b, pb := safeSatisfy(mk(op, f64), doc)
				if pa != "" || pb != "" || a != b {
					c.Violation(&Replay{Stream: "sat", Case: []interface{}{J{"k": "fractional-kind", "op": op, "float32": fmt.Sprint(f32), "as_float64": fmt.Sprint(f64), "field": fmt.Sprint(doc.Get("v"))}},
						Expected: []string{fmt.Sprint(b)}, Actual: []string{fmt.Sprint(a), pa + pb}, Note: "a float32 literal and the float64 holding the same number give different answers (Satisfy)"})
					return false
				}
			}
			na, ea := db.Count(query.NewQuery(coll).Where(mk(op, f32)))
			nb, eb := db.Count(query.NewQuery(coll).Where(mk(op, f64)))
			if ea != nil || eb != nil || na != nb {
				c.Violation(&Replay{Stream: "sat", Case: []interface{}{J{"k": "fractional-kind", "op": op, "float32": fmt.Sprint(f32), "as_float64": fmt.Sprint(f64)}},
					Expected: []string{fmt.Sprint(nb)}, Actual: []string{fmt.Sprint(na), fmt.Sprint(ea, eb)}, Note: "a float32 literal and the float64 holding the same number select different documents (Count through the database, indexed field)"})
				return false
			}
			c.Count("fractional-kind-cell")
		}
	}
	return true
}
