package main

import (
	"encoding/json"
	"fmt"
	"math/rand"
	"os"
	"path/filepath"
	"sort"
	"strings"
	"time"
)

// Ctx carries everything one check run needs.
type Ctx struct {
	Prop         string
	Tier         string
	Seed         int64
	Rng          *rand.Rand
	DriverBin    string
	Scratch      string
	PendingLines []string
	ReplayDir    string
	Start        time.Time

	Evals      int
	Distinct   map[string]bool // distinct non-trivial case fingerprints
	Dist       map[string]int  // input distribution counters
	Samples    []interface{}
	Violations int
	Rule       string
	ImplTraces int
	KnownHits  map[string]bool
	CorrBroken []string // correspondence breaks not (yet) turned into a failing input
	KnownPath  string
	KnownDone  bool
}

func NewCtx(prop, tier string, seed int64, driver, scratch, replayDir string) *Ctx {
	return &Ctx{Prop: prop, Tier: tier, Seed: seed, Rng: rand.New(rand.NewSource(seed)),
		DriverBin: driver, Scratch: scratch, ReplayDir: replayDir, Start: time.Now(),
		Distinct: map[string]bool{}, Dist: map[string]int{}, KnownHits: map[string]bool{}}
}

func (c *Ctx) Quick() bool { return c.Tier != "thorough" }

// N picks the budget for the tier.
func (c *Ctx) N(quick, thorough int) int {
	if c.Quick() {
		return quick
	}
	return thorough
}

func (c *Ctx) Count(key string) { c.Dist[key]++ }

func (c *Ctx) NonTrivial(fp string) { c.Distinct[fp] = true }

func (c *Ctx) Sample(s interface{}) {
	if len(c.Samples) < 5 {
		c.Samples = append(c.Samples, s)
	}
}

// Replay is the on-disk form of a failing (or unexplained) case.
type Replay struct {
	Property        string        `json:"property"`
	Seed            int64         `json:"seed"`
	Tier            string        `json:"tier"`
	Backend         string        `json:"backend,omitempty"`
	Stream          string        `json:"stream"`
	Broken          interface{}   `json:"broken"` // nil | "theorem <name>" | "correspondence <stream>"
	Case            []interface{} `json:"case"`
	Expected        []string      `json:"expected,omitempty"`
	Actual          []string      `json:"actual,omitempty"`
	FirstDivergence int           `json:"first_divergence"`
	ShrunkFrom      int           `json:"shrunk_from"`
	Note            string        `json:"note,omitempty"`
}

func (c *Ctx) writeReplay(r *Replay) string {
	os.MkdirAll(c.ReplayDir, 0o755)
	r.Property, r.Seed, r.Tier = c.Prop, c.Seed, c.Tier
	name := fmt.Sprintf("%s-%d-%d.json", c.Prop, c.Seed, c.Violations+len(c.CorrBroken))
	path := filepath.Join(c.ReplayDir, name)
	b, _ := json.MarshalIndent(r, "", " ")
	os.WriteFile(path, b, 0o644)
	return path
}

// Violation reports a property failure observed on the implementation, with its replay.
func (c *Ctx) Violation(r *Replay) {
	r.Broken = nil
	path := c.writeReplay(r)
	c.Violations++
	fmt.Printf("VIOLATION property=%s replay=%s\n", c.Prop, path)
}

// Unexplained reports a broken correspondence (or proof obligation) for which no failing input was found.
func (c *Ctx) Unexplained(r *Replay, broken string) {
	r.Broken = broken
	path := c.writeReplay(r)
	c.CorrBroken = append(c.CorrBroken, broken)
	// printed at the end of the run, and only if the search did not come up with a concrete failing input
	c.PendingLines = append(c.PendingLines, fmt.Sprintf("VIOLATION property=%s replay=%s no-failing-input-found", c.Prop, path))
}

// Flush prints what was deferred: a broken correspondence is reported as such only when no concrete violation was found.
func (c *Ctx) Flush() {
	if c.Violations == 0 {
		for _, l := range c.PendingLines {
			fmt.Println(l)
		}
	}
	c.PendingLines = nil
}

// WriteEvidence writes the correspondence part of the evidence; the check script merges the
// proof obligations into it.
func (c *Ctx) WriteEvidence(path string) {
	keys := make([]string, 0, len(c.Dist))
	for k := range c.Dist {
		keys = append(keys, k)
	}
	sort.Strings(keys)
	dist := map[string]int{}
	for _, k := range keys {
		dist[k] = c.Dist[k]
	}
	ev := map[string]interface{}{
		"property_id": c.Prop,
		"tier":        c.Tier,
		"seed":        c.Seed,
		"coverage": map[string]interface{}{
			"evaluations":                   c.Evals,
			"distinct_nontrivial":           len(c.Distinct),
			"rule":                          c.Rule,
			"samples":                       c.Samples,
			"distribution":                  dist,
			"traces_validated_against_impl": c.ImplTraces,
		},
		"violations": c.Violations + len(c.CorrBroken),
		"wall_s":     time.Since(c.Start).Seconds(),
	}
	b, _ := json.MarshalIndent(ev, "", " ")
	if err := os.WriteFile(path, b, 0o644); err != nil {
		panic(err)
	}
}

func splitTabs(s string) (string, map[string]string) {
	parts := strings.Split(s, "\t")
	kv := map[string]string{}
	for _, p := range parts[1:] {
		if i := strings.IndexByte(p, '='); i >= 0 {
			kv[p[:i]] = p[i+1:]
		}
	}
	return parts[0], kv
}

var errStopBase = fmt.Errorf("stop")
