package main

import (
	"encoding/hex"
	"encoding/json"
	"fmt"
	"math"
	"sort"
	"strconv"
	"strings"
	"time"
)

// ---- protocol JSON <-> Go values (the canonical types of clover) ----

type J = map[string]interface{}

func hx(s string) string { return hex.EncodeToString([]byte(s)) }

func unhx(s string) string {
	b, err := hex.DecodeString(s)
	if err != nil {
		panic("bad hex " + s)
	}
	return string(b)
}

// encValue turns a canonical Go value into its protocol JSON tree.
func encValue(v interface{}) interface{} {
	switch x := v.(type) {
	case nil:
		return nil
	case bool:
		return J{"b": x}
	case int64:
		return J{"i": strconv.FormatInt(x, 10)}
	case uint64:
		return J{"u": strconv.FormatUint(x, 10)}
	case float64:
		return J{"f": fmt.Sprintf("%016x", math.Float64bits(x))}
	case string:
		return J{"s": hx(x)}
	case time.Time:
		_, off := x.Zone()
		return J{"t": []interface{}{strconv.FormatInt(x.UnixNano(), 10), strconv.Itoa(off)}}
	case []interface{}:
		a := make([]interface{}, 0, len(x))
		for _, e := range x {
			a = append(a, encValue(e))
		}
		return J{"a": a}
	case map[string]interface{}:
		return J{"o": encDoc(x)}
	}
	panic(fmt.Sprintf("encValue: unsupported %T", v))
}

func sortedKeys(m map[string]interface{}) []string {
	ks := make([]string, 0, len(m))
	for k := range m {
		ks = append(ks, k)
	}
	sort.Strings(ks)
	return ks
}

func encDoc(m map[string]interface{}) []interface{} {
	a := make([]interface{}, 0, len(m))
	for _, k := range sortedKeys(m) {
		a = append(a, []interface{}{hx(k), encValue(m[k])})
	}
	return a
}

func mkTime(ns int64, off int) time.Time {
	loc := time.UTC
	if off != 0 {
		loc = time.FixedZone("", off)
	}
	return time.Unix(0, ns).In(loc)
}

// decValue is the inverse of encValue (input: tree produced by encoding/json).
func decValue(j interface{}) interface{} {
	if j == nil {
		return nil
	}
	m := j.(map[string]interface{})
	if b, ok := m["b"]; ok {
		return b.(bool)
	}
	if s, ok := m["i"]; ok {
		n, err := strconv.ParseInt(s.(string), 10, 64)
		if err != nil {
			panic(err)
		}
		return n
	}
	if s, ok := m["u"]; ok {
		n, err := strconv.ParseUint(s.(string), 10, 64)
		if err != nil {
			panic(err)
		}
		return n
	}
	if s, ok := m["f"]; ok {
		n, err := strconv.ParseUint(s.(string), 16, 64)
		if err != nil {
			panic(err)
		}
		return math.Float64frombits(n)
	}
	if s, ok := m["s"]; ok {
		return unhx(s.(string))
	}
	if t, ok := m["t"]; ok {
		a := t.([]interface{})
		ns, _ := strconv.ParseInt(a[0].(string), 10, 64)
		off, _ := strconv.Atoi(a[1].(string))
		return mkTime(ns, off)
	}
	if a, ok := m["a"]; ok {
		out := make([]interface{}, 0)
		for _, e := range a.([]interface{}) {
			out = append(out, decValue(e))
		}
		return out
	}
	if o, ok := m["o"]; ok {
		return decDoc(o)
	}
	panic(fmt.Sprintf("decValue: %v", j))
}

func decDoc(j interface{}) map[string]interface{} {
	out := make(map[string]interface{})
	for _, p := range j.([]interface{}) {
		pa := p.([]interface{})
		out[unhx(pa[0].(string))] = decValue(pa[1])
	}
	return out
}

// canonValue prints a Go value exactly like the Lean driver's showValue. Values outside the
// canonical types are printed with a `?` tag so that they never compare equal to a model value.
func canonValue(v interface{}) string {
	switch x := v.(type) {
	case nil:
		return "N"
	case bool:
		if x {
			return "B1"
		}
		return "B0"
	case int64:
		return "I" + strconv.FormatInt(x, 10)
	case uint64:
		return "U" + strconv.FormatUint(x, 10)
	case float64:
		return fmt.Sprintf("F%016x", math.Float64bits(x))
	case string:
		return "S" + hx(x)
	case time.Time:
		_, off := x.Zone()
		return fmt.Sprintf("T%d:%d", x.UnixNano(), off)
	case []interface{}:
		parts := make([]string, 0, len(x))
		for _, e := range x {
			parts = append(parts, canonValue(e))
		}
		return "[" + strings.Join(parts, ",") + "]"
	case map[string]interface{}:
		return canonDoc(x)
	}
	return fmt.Sprintf("?%T:%v", v, v)
}

func canonDoc(m map[string]interface{}) string {
	parts := make([]string, 0, len(m))
	for _, k := range sortedKeys(m) {
		parts = append(parts, hx(k)+"="+canonValue(m[k]))
	}
	return "{" + strings.Join(parts, ",") + "}"
}

// asInt reads a JSON number whether it came from encoding/json (float64) or from a generator (int).
func asInt(v interface{}) int {
	switch x := v.(type) {
	case int:
		return x
	case int64:
		return int(x)
	case float64:
		return int(x)
	case json.Number:
		n, err := x.Int64()
		if err != nil {
			f, _ := x.Float64()
			return int(f)
		}
		return int(n)
	}
	panic(fmt.Sprintf("asInt: %T", v))
}

// asJ reads a JSON object whether it is a J or a plain map.
func asJ(v interface{}) J {
	switch x := v.(type) {
	case J:
		return x
	}
	panic(fmt.Sprintf("asJ: %T", v))
}
