package main

import (
	"bytes"
	"encoding/json"
	"flag"
	"fmt"
	"os"
	"strconv"
)

type streamFn func(c *Ctx)

var streams = map[string]streamFn{}

func main() {
	prop := flag.String("prop", "", "property id")
	tier := flag.String("tier", "quick", "quick|thorough")
	seed := flag.Int64("seed", 1, "PRNG seed")
	driver := flag.String("driver", "/verif/lean/.lake/build/bin/driver", "Lean driver binary")
	evidence := flag.String("evidence", "", "where to write the correspondence evidence")
	replayDir := flag.String("replaydir", "/verif/replays", "where replay files go")
	replay := flag.String("replay", "", "replay file to re-execute")
	known := flag.String("known", "/verif/known_findings.json", "known findings file")
	child := flag.String("child", "", "(internal) run as the crash-test child on this backend")
	childDir := flag.String("childdir", "", "(internal) database directory of the child")
	childHist := flag.String("childhist", "", "(internal) history file of the child")
	flag.Parse()
	if s := os.Getenv("VERIF_SEED"); s != "" && !isFlagSet("seed") {
		if n, err := strconv.ParseInt(s, 10, 64); err == nil {
			*seed = n
		}
	}
	if *child != "" {
		childMain(*child, *childDir, *childHist)
		return
	}
	scratch, err := os.MkdirTemp("", "verif-corr-")
	if err != nil {
		panic(err)
	}
	defer os.RemoveAll(scratch)

	if *replay != "" {
		code := runReplay(*replay, *driver, scratch)
		os.RemoveAll(scratch)
		os.Exit(code)
	}
	fn, ok := streams[*prop]
	if !ok {
		fmt.Fprintf(os.Stderr, "no stream for %s\n", *prop)
		os.RemoveAll(scratch)
		os.Exit(2)
	}
	c := NewCtx(*prop, *tier, *seed, *driver, scratch, *replayDir)
	c.KnownPath = *known
	fn(c)
	c.Flush()
	if *evidence != "" {
		c.WriteEvidence(*evidence)
	}
	os.RemoveAll(scratch)
	if c.Violations+len(c.CorrBroken) > 0 {
		os.Exit(1)
	}
}

func isFlagSet(name string) bool {
	set := false
	flag.Visit(func(f *flag.Flag) {
		if f.Name == name {
			set = true
		}
	})
	return set
}

func readReplay(path string) *Replay {
	b, err := os.ReadFile(path)
	if err != nil {
		panic(err)
	}
	var r Replay
	dec := json.NewDecoder(bytes.NewReader(b))
	dec.UseNumber()
	if err := dec.Decode(&r); err != nil {
		panic(err)
	}
	return &r
}
