package main

import (
	"fmt"
	"math"
	"strings"
)

// ---- generators for documents, criteria, queries and histories over a small schema ----

var collNames = []string{"a", "ab", "a.b", "é", "", "c d", "measurements"}
var fieldNames = []string{"x", "xy", "y", "n.a", "n", "n.b", "z", "temperature"}
var indexable = []string{"x", "xy", "y", "n.a", "n", "_id", "temperature"}

type HistGen struct {
	G        *Gen
	Pool     []interface{} // values the history's documents and literals draw from
	Colls    []string
	NextId   int
	Ids      []string // ids handed out so far
	MaxDepth int
	Focus    []string // fields the criteria and sorts prefer (the indexed ones)
}

func NewHistGen(g *Gen, ncoll int, critDepth int) *HistGen {
	h := &HistGen{G: g, MaxDepth: critDepth}
	perm := g.R.Perm(len(collNames))
	for i := 0; i < ncoll; i++ {
		h.Colls = append(h.Colls, collNames[perm[i]])
	}
	n := 6 + g.pick(6)
	for i := 0; i < n; i++ {
		h.Pool = append(h.Pool, g.Atom())
	}
	// neighbours in the order, so that comparisons discriminate
	h.Pool = append(h.Pool, int64(5), float64(5), uint64(5), int64(6), "a", "ab", nil)
	if !g.Dm.IntsWithin2p53 {
		// integer extremes meet each other: int64 min/max against uint64 values above MaxInt64
		h.Pool = append(h.Pool, uint64(1<<63), uint64(1<<63+5), uint64(math.MaxUint64), int64(math.MaxInt64), int64(math.MinInt64), uint64(math.MaxUint64))
	}
	if g.pick(2) == 0 {
		h.Pool = append(h.Pool, []interface{}{int64(1), "a"}, []interface{}{}, map[string]interface{}{"a": int64(1)})
	}
	return h
}

func (h *HistGen) val() interface{} { return h.Pool[h.G.pick(len(h.Pool))] }

func (h *HistGen) coll() string { return h.Colls[h.G.pick(len(h.Colls))] }

func (h *HistGen) newId() string {
	h.NextId++
	id := fixedId(h.NextId)
	// caller-supplied ids in other valid 36-character spellings: hex letters, upper case, mixed case
	switch h.G.pick(8) {
	case 0:
		id = fmt.Sprintf("%08X-ABCD-4EF0-8000-%012X", h.NextId, h.NextId+0xABCDEF)
	case 1:
		id = fmt.Sprintf("%08x-abcd-4ef0-8000-%012x", h.NextId, h.NextId+0xabcdef)
	case 2:
		id = fmt.Sprintf("%08x-AbCd-4eF0-8000-%012X", h.NextId, h.NextId+0xabcdef)
	}
	h.Ids = append(h.Ids, id)
	return id
}

func (h *HistGen) someId() string {
	if len(h.Ids) == 0 || h.G.pick(8) == 0 {
		return fixedId(900000 + h.G.pick(5)) // absent
	}
	return h.Ids[h.G.pick(len(h.Ids))]
}

// Doc with an explicit id ("" = let Insert assign one).
func (h *HistGen) Doc(id string) map[string]interface{} {
	m := map[string]interface{}{}
	if id != "" {
		m["_id"] = id
	}
	for _, f := range []string{"x", "xy", "y", "temperature"} {
		if h.G.pick(10) < 7 {
			m[f] = h.val()
		}
	}
	if h.G.pick(3) == 0 {
		n := map[string]interface{}{}
		if h.G.pick(2) == 0 {
			n["a"] = h.val()
		}
		if h.G.pick(2) == 0 {
			n["b"] = h.val()
		}
		m["n"] = n
	} else if h.G.pick(6) == 0 {
		m["n"] = h.val() // not a map: n.a is absent
	}
	if h.G.pick(12) == 0 {
		m["arr"] = []interface{}{h.val(), h.val()}
		if h.G.pick(3) == 0 {
			// a long, unsorted array (a criteria or an index that works on the document's own slice would show)
			arr := []interface{}{}
			for i := 0; i < 8+h.G.pick(6); i++ {
				arr = append(arr, h.val())
			}
			m["arr"] = arr
		}
	}
	if h.G.pick(25) == 0 {
		m["_expiresAt"] = boundaryTimes()[3+h.G.pick(7)] // an expiration time (any other type is refused by Validate)
	}
	if id != "" && h.G.pick(10) == 0 {
		m["y"] = id // a field holding the document's own id (criteria on _id with a reference to it select the document)
	}
	return m
}

func (h *HistGen) operand() interface{} {
	switch h.G.pick(12) {
	case 0:
		return J{"ref": hx(fieldNames[h.G.pick(len(fieldNames))])}
	case 1:
		return J{"lit": encValue("$" + fieldNames[h.G.pick(len(fieldNames))])}
	case 2:
		return J{"lit": nil}
	}
	return J{"lit": encValue(h.val())}
}

func (h *HistGen) field() string {
	if len(h.Focus) > 0 && h.G.pick(10) < 6 {
		return h.Focus[h.G.pick(len(h.Focus))]
	}
	fs := append([]string{"_id", "arr"}, fieldNames...)
	return fs[h.G.pick(len(fs))]
}

var likePatterns = []string{".*", "^a", "a$", "^ab$", "b", "(", "^$", "A"}

func (h *HistGen) Leaf() J {
	f := hx(h.field())
	if h.G.pick(40) == 0 {
		// _id compared with a field reference (either spelling) or with a stored id
		ops := []interface{}{J{"lit": encValue("$y")}, J{"ref": hx("y")}, J{"lit": encValue(h.someId())}}
		return J{"cmp": []interface{}{[]string{"eq", "eq", "ge", "le"}[h.G.pick(4)], hx("_id"), ops[h.G.pick(3)]}}
	}
	switch h.G.pick(14) {
	case 0:
		return J{"exists": f}
	case 1:
		return J{"not": J{"exists": f}}
	case 2:
		return J{"like": []interface{}{f, hx(likePatterns[h.G.pick(len(likePatterns))])}}
	case 3:
		n := h.G.pick(4)
		if h.G.pick(8) == 0 {
			n = 14 + h.G.pick(24) // long operand lists (a list-size threshold is a natural place for a fast path)
		}
		xs := []interface{}{}
		for i := 0; i < n; i++ {
			xs = append(xs, h.operand())
		}
		return J{"in": []interface{}{f, xs}}
	case 4:
		n := h.G.pick(3)
		if h.G.pick(8) == 0 {
			n = 14 + h.G.pick(24)
		}
		xs := []interface{}{}
		for i := 0; i < n; i++ {
			xs = append(xs, h.operand())
		}
		fa := f
		if h.G.pick(2) == 0 {
			fa = hx("arr")
		}
		return J{"contains": []interface{}{fa, xs}}
	case 5:
		return J{"fn": h.G.pick(4)}
	case 6:
		if h.G.pick(4) == 0 {
			return J{"or": []interface{}{J{"cmp": []interface{}{"eq", f, J{"lit": nil}}}, J{"not": J{"exists": f}}}} // IsNilOrNotExists
		}
		if h.G.pick(4) == 0 {
			return J{"cmp": []interface{}{"eq", f, J{"lit": encValue([]interface{}{true, false}[h.G.pick(2)])}}} // IsTrue / IsFalse
		}
		return J{"not": J{"cmp": []interface{}{"eq", f, h.operand()}}} // Neq
	}
	ops := []string{"eq", "gt", "ge", "lt", "le"}
	return J{"cmp": []interface{}{ops[h.G.pick(5)], f, h.operand()}}
}

// sameFieldPair: two comparisons on one field whose ranges overlap or nest (x > a AND x >= b ...)
func (h *HistGen) sameFieldPair() J {
	// two (sometimes three) constraints on ONE field, joined by and / or: often with the SAME literal and different
	// inclusivity (f==5 or f>5, f<5 or f==5, f>7 or f>=7), sometimes with nil as one of the literals (f<5 and f==nil)
	f := hx(h.field())
	ops := []string{"gt", "ge", "lt", "le", "eq", "ne"}
	va := h.val()
	vb := h.val()
	switch h.G.pick(5) {
	case 0, 1:
		vb = va
	case 2:
		if h.G.pick(2) == 0 {
			va = nil
		} else {
			vb = nil
		}
	}
	mk := func(op string, v interface{}) J {
		if op == "ne" {
			return J{"not": J{"cmp": []interface{}{"eq", f, J{"lit": encValue(v)}}}}
		}
		return J{"cmp": []interface{}{op, f, J{"lit": encValue(v)}}}
	}
	a := mk(ops[h.G.pick(6)], va)
	b := mk(ops[h.G.pick(6)], vb)
	conn := []string{"and", "or"}
	pair := J{conn[h.G.pick(2)]: []interface{}{a, b}}
	if h.G.pick(4) == 0 {
		third := mk(ops[h.G.pick(6)], h.val())
		if h.G.pick(2) == 0 {
			return J{conn[h.G.pick(2)]: []interface{}{third, pair}}
		}
		return J{conn[h.G.pick(2)]: []interface{}{pair, third}}
	}
	return pair
}

func (h *HistGen) Crit(depth int) J {
	if depth > 0 && h.G.pick(8) == 0 {
		return h.sameFieldPair()
	}
	if depth <= 0 || h.G.pick(3) == 0 {
		return h.Leaf()
	}
	switch h.G.pick(5) {
	case 0, 1:
		return J{"and": []interface{}{h.Crit(depth - 1), h.Crit(depth - 1)}}
	case 2, 3:
		return J{"or": []interface{}{h.Crit(depth - 1), h.Crit(depth - 1)}}
	}
	return J{"not": h.Crit(depth - 1)}
}

func critShape(c J) string {
	for k, v := range c {
		switch k {
		case "and", "or":
			a := v.([]interface{})
			return k + "(" + critShape(a[0].(J)) + "," + critShape(a[1].(J)) + ")"
		case "not":
			return "not(" + critShape(v.(J)) + ")"
		case "cmp":
			return v.([]interface{})[0].(string)
		default:
			return k
		}
	}
	return "?"
}

func (h *HistGen) Query(coll string) J {
	q := J{"coll": hx(coll)}
	if h.G.pick(10) < 7 {
		q["crit"] = h.Crit(h.G.pick(h.MaxDepth + 1))
	}
	switch h.G.pick(10) {
	case 0, 1, 2:
		dirs := []int{1, -1, 0, 5, -3, math.MinInt64, math.MaxInt64, 1 << 62, -(1 << 62)}
		q["sort"] = []interface{}{[]interface{}{hx(h.field()), dirs[h.G.pick(len(dirs))]}}
	case 3:
		q["sort"] = []interface{}{[]interface{}{hx(h.field()), 1 - 2*h.G.pick(2)}, []interface{}{hx(h.field()), 1 - 2*h.G.pick(2)}}
	case 4:
		q["sortDefault"] = true
	}
	skips := []int{0, 0, 0, 0, 1, 2, 10, -1, 1, math.MaxInt}
	limits := []int{-1, -1, -1, -1, 0, 1, 2, 5, 100, -7, math.MaxInt, math.MaxInt - 1, math.MinInt}
	if s := skips[h.G.pick(len(skips))]; s != 0 {
		q["skip"] = s
	}
	if l := limits[h.G.pick(len(limits))]; l != -1 {
		q["limit"] = l
	}
	return q
}

// WriteQuery: a query for a bulk write. Which documents a windowed query selects is only
// determined when the order is total, so a skip/limit comes with a sort ending in _id.
func (h *HistGen) WriteQuery(coll string) J {
	q := h.Query(coll)
	_, hasSkip := q["skip"]
	_, hasLimit := q["limit"]
	if !hasSkip && !hasLimit {
		return q
	}
	if _, ok := q["sortDefault"]; ok {
		return q
	}
	if s, ok := q["sort"]; ok {
		q["sort"] = append(s.([]interface{}), []interface{}{hx("_id"), 1})
		return q
	}
	q["sortDefault"] = true
	return q
}

func (h *HistGen) Upd() J {
	u := h.upd0()
	if _, isNil := u["nil"]; !isNil && h.G.pick(2) == 0 {
		u["inplace"] = 1
	}
	return u
}

func (h *HistGen) upd0() J {
	switch h.G.pick(8) {
	case 0:
		return J{"nil": true}
	case 1:
		return J{"copy": []interface{}{hx(h.field()), hx([]string{"x", "y", "xy", "n.a", "w"}[h.G.pick(5)])}}
	case 2:
		// tries to rewrite _id - as a whole, or through a dotted path into it (which replaces the id by an object)
		if h.G.pick(3) == 0 {
			return J{"setAll": []interface{}{[]interface{}{hx([]string{"_id.x", "_id.a.b", "_id."}[h.G.pick(3)]), encValue(h.val())}}}
		}
		return J{"setAll": []interface{}{[]interface{}{hx("_id"), encValue(h.someId())}}}
	}
	if h.G.pick(8) == 0 {
		// the enclosing object of an indexable dotted path is replaced as a whole (n.a, n.b change with it)
		obj := map[string]interface{}{}
		if h.G.pick(4) != 0 {
			obj["a"] = h.val()
		}
		if h.G.pick(2) == 0 {
			obj["b"] = h.val()
		}
		return J{"setAll": []interface{}{[]interface{}{hx("n"), encValue(obj)}}}
	}
	// paths that are not prefix-related (Go iterates the update map in random order)
	cands := [][]string{{"x"}, {"y"}, {"x", "y"}, {"xy", "n.a"}, {"n.b", "x"}, {"w"}, {"n"}}
	ps := cands[h.G.pick(len(cands))]
	kvs := []interface{}{}
	for _, p := range ps {
		kvs = append(kvs, []interface{}{hx(p), encValue(h.val())})
	}
	return J{"setAll": kvs}
}

type HistCfg struct {
	Ops        int
	QueriesPer int  // queries after every write
	Dumps      bool // dump after every write
	Indexes    bool
	Reopen     bool
	Malformed  bool // invalid ids, missing collections ...
	ManyColls  bool // catalog-heavy: more collections, more create/drop
	IndexHeavy bool // more index create/drop
	NoFresh    bool // every inserted document carries its _id (results are then comparable across runs)
	Faults     bool // some operations are hit by a store fault at a random call (begin, get, set, delete, item, commit); the history goes on
}

func opLine(name string, kv J) J {
	kv["k"] = "op"
	kv["op"] = name
	return kv
}

func (h *HistGen) readOps(coll string, n int) []J {
	out := []J{}
	for i := 0; i < n; i++ {
		q := h.Query(coll)
		switch h.G.pick(12) {
		case 0:
			out = append(out, opLine("count", J{"q": q}))
		case 1:
			out = append(out, opLine("exists", J{"q": q}))
		case 2:
			out = append(out, opLine("findFirst", J{"q": q}))
		case 3:
			l := opLine("forEach", J{"q": q})
			if h.G.pick(2) == 0 {
				l["stopAfter"] = 1 + h.G.pick(3)
			}
			out = append(out, l)
		case 4:
			out = append(out, opLine("findById", J{"coll": hx(coll), "id": hx(h.someId())}))
		default:
			out = append(out, opLine("findAll", J{"q": q}))
		}
	}
	return out
}

// History generates a random history.
func (h *HistGen) History(cfg HistCfg) []J {
	lines := []J{}
	for _, c := range h.Colls {
		if h.G.pick(6) != 0 {
			lines = append(lines, opLine("createCollection", J{"coll": hx(c)}))
		}
	}
	for i := 0; i < cfg.Ops; i++ {
		c := h.coll()
		var ln J
		r := h.G.pick(100)
		if cfg.IndexHeavy && h.G.pick(3) == 0 {
			r = 72 + h.G.pick(14)
		}
		if cfg.ManyColls && h.G.pick(3) == 0 {
			r = 86 + h.G.pick(14)
		}
		switch {
		case r < 30:
			n := 1 + h.G.pick(4)
			docs := []interface{}{}
			for j := 0; j < n; j++ {
				id := ""
				pk := h.G.pick(10)
				if cfg.NoFresh && pk == 0 {
					pk = 2
				}
				switch pk {
				case 0:
				case 1:
					if cfg.Malformed {
						id = h.someId() // possibly a duplicate
					} else {
						id = h.newId()
					}
				default:
					id = h.newId()
				}
				if cfg.Malformed && h.G.pick(25) == 0 {
					// (the last three are spellings uuid.FromString accepts but that cannot serve as keys: the index reserves 36 bytes for the id)
					id = []string{"not-a-uuid", "0000", strings.Repeat("z", 36), "00000000-0000-0000-0000-00000000000", "0000000000004000800000000000abcd",
						"{00000000-0000-4000-8000-00000000abcd}", "urn:uuid:00000000-0000-4000-8000-00000000abcd"}[h.G.pick(7)]
				}
				dm := h.Doc(id)
				if cfg.Malformed && h.G.pick(30) == 0 {
					// an _id that is present but not a string (a number, a bool, a map, nil): malformed, to be rejected like any other
					dm["_id"] = []interface{}{int64(42), true, map[string]interface{}{"a": int64(1)}, nil, float64(1.5), []interface{}{"x"}}[h.G.pick(6)]
				}
				docs = append(docs, encDoc(dm))
			}
			ln = opLine("insert", J{"coll": hx(c), "docs": docs})
		case r < 36:
			id := h.someId()
			if h.G.pick(3) == 0 && !cfg.NoFresh {
				id = ""
			}
			sd := h.Doc(id)
			if cfg.Malformed && h.G.pick(15) == 0 {
				sd["_id"] = []interface{}{int64(42), false, map[string]interface{}{}, nil}[h.G.pick(4)]
			}
			ln = opLine("save", J{"coll": hx(c), "doc": encDoc(sd)})
		case r < 42:
			id := h.someId()
			did := id
			if cfg.Malformed && h.G.pick(6) == 0 {
				did = h.someId()
			}
			ln = opLine("replaceById", J{"coll": hx(c), "id": hx(id), "doc": encDoc(h.Doc(did))})
		case r < 50:
			ln = opLine("updateById", J{"coll": hx(c), "id": hx(h.someId()), "upd": h.Upd()})
		case r < 60:
			ln = opLine("update", J{"q": h.WriteQuery(c), "upd": h.Upd()})
			if _, ok := ln["upd"].(J)["setAll"]; ok && h.G.pick(2) == 0 {
				ln["viaUpdate"] = 1
			}
		case r < 66:
			ln = opLine("delete", J{"q": h.WriteQuery(c)})
		case r < 72:
			ln = opLine("deleteById", J{"coll": hx(c), "id": hx(h.someId())})
		case r < 82 && cfg.Indexes:
			ln = opLine("createIndex", J{"coll": hx(c), "field": hx(indexable[h.G.pick(len(indexable))])})
		case r < 86 && cfg.Indexes:
			ln = opLine("dropIndex", J{"coll": hx(c), "field": hx(indexable[h.G.pick(len(indexable))])})
		case r < 89:
			ln = opLine("dropCollection", J{"coll": hx(c)})
		case r < 93:
			ln = opLine("createCollection", J{"coll": hx(c)})
		case r < 95:
			src := h.coll()
			ln = opLine("createCollectionByQuery", J{"coll": hx(c), "q": h.WriteQuery(src)})
		default:
			switch h.G.pick(5) {
			case 0:
				ln = opLine("listCollections", J{})
			case 1:
				ln = opLine("hasCollection", J{"coll": hx(c)})
			case 2:
				ln = opLine("listIndexes", J{"coll": hx(c)})
			case 3:
				ln = opLine("hasIndex", J{"coll": hx(c), "field": hx(indexable[h.G.pick(len(indexable))])})
			default:
				ln = opLine("count", J{"q": J{"coll": hx(c)}})
			}
		}
		if cfg.Faults && h.G.pick(4) == 0 {
			// the k-th store call of this operation fails (nothing fires when the operation makes fewer calls)
			ln["fault"] = []int{0, 1, 2, 3, 4, 5, 6, 8, 10, 14, 20, 30}[h.G.pick(12)]
		}
		lines = append(lines, ln)
		if cfg.Dumps {
			lines = append(lines, J{"k": "dump"})
		}
		if cfg.Reopen && h.G.pick(10) == 0 {
			lines = append(lines, J{"k": "reopen"})
		}
		lines = append(lines, h.readOps(c, cfg.QueriesPer)...)
	}
	return lines
}

// ---- name variation: a generated history re-spelled with other collection / field names ----
//
// Every name travels hex-encoded, so a history can be renamed consistently after generation.  Two families a
// key-building or buffer-reusing change is sensitive to, neither of which the fixed name pools reach:
//   - separator families: collections "u" and "u<sep>m" with fields "m<sep>a" and "a" (any concatenation of a
//     collection name, a separator and a field name that is not injective makes them collide);
//   - long names (300-1100 bytes: allocator size classes, buffer thresholds).
//
// varyNames returns the renamed copy and a short label for the evidence.
func varyNames(g *Gen, lines []J, colls []string) ([]J, string) {
	ren := map[string]string{}
	label := ""
	switch g.pick(3) {
	case 0:
		sep := []string{":", "/", "-", "_", "|", ",", " ", "::"}[g.pick(8)]
		if len(colls) > 0 {
			ren[colls[0]] = "u"
		}
		if len(colls) > 1 {
			ren[colls[1]] = "u" + sep + "m"
		}
		if len(colls) > 2 {
			ren[colls[2]] = "u" + sep + "m" + sep + "a"
		}
		ren["x"] = "a"
		ren["xy"] = "m" + sep + "a"
		ren["y"] = "m"
		label = "names:separator-family"
	case 1:
		n := []int{300, 508, 520, 660, 900, 1100}[g.pick(6)] + g.pick(9)
		if len(colls) > 0 {
			ren[colls[g.pick(len(colls))]] = strings.Repeat("L", n) + "q"
		}
		label = "names:long-collection"
	default:
		n := []int{20, 33, 64, 120, 300}[g.pick(5)] + g.pick(7)
		ren[[]string{"x", "xy", "y"}[g.pick(3)]] = strings.Repeat("f", n)
		if len(colls) > 0 {
			ren[colls[0]] = strings.Repeat("c", 1+g.pick(40))
		}
		label = "names:long-field"
	}
	hren := map[string]string{}
	for a, b := range ren {
		hren[hx(a)] = hx(b)
		hren[hx("$"+a)] = hx("$" + b)
	}
	out := make([]J, len(lines))
	for i, ln := range lines {
		out[i] = renameTree(ln, hren).(J)
	}
	return out, label
}

func renameTree(v interface{}, hren map[string]string) interface{} {
	switch x := v.(type) {
	case string:
		if to, ok := hren[x]; ok {
			return to
		}
		return x
	case J:
		o := J{}
		for k, e := range x {
			switch k {
			case "i", "u", "f", "t", "k", "op", "b":
				o[k] = e // numbers, times, protocol words
			default:
				o[k] = renameTree(e, hren)
			}
		}
		return o
	case []interface{}:
		o := make([]interface{}, len(x))
		for i, e := range x {
			o[i] = renameTree(e, hren) // (document pairs need no re-sorting: both sides insert them key by key)
		}
		return o
	case []string:
		o := make([]interface{}, len(x))
		for i, e := range x {
			o[i] = renameTree(e, hren)
		}
		return o
	case []J:
		o := make([]interface{}, len(x))
		for i, e := range x {
			o[i] = renameTree(e, hren)
		}
		return o
	}
	return v
}
