package main

import (
	"encoding/json"
	"fmt"
	"os"
	"path/filepath"
)

type knownFinding struct {
	Property   string `json:"property"`
	Id         string `json:"id"`
	Reproducer string `json:"reproducer"`
	Region     string `json:"region"`
	What       string `json:"what"`
}

// replayKnownFindings re-executes the reproducer of every finding listed for this property in
// the committed known-findings file. While a reproducer still fails, `KNOWN-FINDING: ...` is
// printed (and the check does not fail because of it); the file is never written at run time.
func replayKnownFindings(c *Ctx, dr *Driver) {
	b, err := os.ReadFile(c.KnownPath)
	if err != nil {
		return
	}
	var kf struct {
		Known []knownFinding `json:"known"`
	}
	if json.Unmarshal(b, &kf) != nil {
		return
	}
	for _, k := range kf.Known {
		if k.Property != c.Prop {
			continue
		}
		rb, err := os.ReadFile(filepath.Join(filepath.Dir(c.KnownPath), k.Reproducer))
		if err != nil {
			fmt.Printf("known finding %s: reproducer missing (%v)\n", k.Id, err)
			continue
		}
		var rep Replay
		if json.Unmarshal(rb, &rep) != nil {
			continue
		}
		im := NewImpl(rep.Backend, c.Scratch)
		o := runHistory(dr, im, caseLines(&rep), HistOpts{})
		im.Destroy()
		c.Count("known-finding-replayed")
		if o.Index >= 0 && o.Kind == "spec" {
			fmt.Printf("KNOWN-FINDING: property=%s %s [%s]\n", c.Prop, k.What, k.Id)
			c.KnownHits[k.Id] = true
		} else {
			fmt.Printf("known finding %s no longer reproduces on this tree (listed region: %s)\n", k.Id, k.Region)
		}
	}
}
