package main

import (
	"fmt"

	d "github.com/ostafen/clover/v2/document"
	"github.com/ostafen/clover/v2/query"
)

// ---- protocol JSON -> clover criteria / queries ----

func decOperand(j interface{}) interface{} {
	m := j.(map[string]interface{})
	if r, ok := m["ref"]; ok {
		return query.Field(unhx(r.(string)))
	}
	return decValue(m["lit"])
}

func decOperands(j interface{}) []interface{} {
	out := make([]interface{}, 0)
	for _, e := range j.([]interface{}) {
		out = append(out, decOperand(e))
	}
	return out
}

// the MatchFunc family shared with the Lean driver (fnImpl)
func fnFamily(id int) func(doc *d.Document) bool {
	switch id {
	case 0:
		return func(*d.Document) bool { return true }
	case 1:
		return func(*d.Document) bool { return false }
	case 2:
		return func(doc *d.Document) bool { return doc.Has("x") }
	case 3:
		return func(doc *d.Document) bool {
			switch doc.Get("x").(type) {
			case int64, uint64, float64:
				return true
			}
			return false
		}
	}
	return func(*d.Document) bool { return false }
}

// builderTurn alternates between the two spellings the public API offers for the same criterion (Neq vs Eq().Not(),
// NotExists vs Exists().Not(), IsNil / IsTrue / IsFalse vs Eq(literal), IsNilOrNotExists vs the disjunction): C16 states
// they are the same criterion, so every builder function is exercised against the one model criterion.
var builderTurn int

func litOf(j interface{}) (interface{}, bool) {
	m, ok := j.(map[string]interface{})
	if !ok {
		return nil, false
	}
	if _, isRef := m["ref"]; isRef {
		return nil, false
	}
	l, has := m["lit"]
	if !has {
		return nil, false
	}
	return decValue(l), true
}

func decCrit(j interface{}) query.Criteria {
	m := j.(map[string]interface{})
	builderTurn++
	alt := builderTurn%2 == 0
	if f, ok := m["exists"]; ok {
		return query.Field(unhx(f.(string))).Exists()
	}
	if c, ok := m["not"]; ok && alt {
		if inner, ok := c.(map[string]interface{}); ok {
			if f, ok := inner["exists"]; ok {
				return query.Field(unhx(f.(string))).NotExists()
			}
			if a, ok := inner["cmp"]; ok {
				if arr := a.([]interface{}); arr[0].(string) == "eq" {
					return query.Field(unhx(arr[1].(string))).Neq(decOperand(arr[2]))
				}
			}
		}
	}
	if a, ok := m["or"]; ok && alt {
		// Eq(nil) Or NotExists on the same field
		arr := a.([]interface{})
		l, lok := arr[0].(map[string]interface{})
		r, rok := arr[1].(map[string]interface{})
		if lok && rok {
			if ca, ok := l["cmp"]; ok {
				if n, ok := r["not"].(map[string]interface{}); ok {
					carr := ca.([]interface{})
					if v, isLit := litOf(carr[2]); isLit && v == nil && carr[0].(string) == "eq" && n["exists"] == carr[1] {
						return query.Field(unhx(carr[1].(string))).IsNilOrNotExists()
					}
				}
			}
		}
	}
	if a, ok := m["cmp"]; ok {
		arr := a.([]interface{})
		f := query.Field(unhx(arr[1].(string)))
		x := decOperand(arr[2])
		if v, isLit := litOf(arr[2]); isLit && alt && arr[0].(string) == "eq" {
			switch v {
			case nil:
				return f.IsNil()
			case true:
				return f.IsTrue()
			case false:
				return f.IsFalse()
			}
		}
		switch arr[0].(string) {
		case "eq":
			return f.Eq(x)
		case "gt":
			return f.Gt(x)
		case "ge":
			return f.GtEq(x)
		case "lt":
			return f.Lt(x)
		case "le":
			return f.LtEq(x)
		}
		panic("bad cmp op")
	}
	if a, ok := m["like"]; ok {
		arr := a.([]interface{})
		return query.Field(unhx(arr[0].(string))).Like(unhx(arr[1].(string)))
	}
	if a, ok := m["in"]; ok {
		arr := a.([]interface{})
		return query.Field(unhx(arr[0].(string))).In(decOperands(arr[1])...)
	}
	if a, ok := m["contains"]; ok {
		arr := a.([]interface{})
		return query.Field(unhx(arr[0].(string))).Contains(decOperands(arr[1])...)
	}
	if n, ok := m["fn"]; ok {
		// a bare MatchFunc criterion: built through a query, then extracted
		return query.NewQuery("").MatchFunc(fnFamily(asInt(n))).Criteria()
	}
	if a, ok := m["and"]; ok {
		arr := a.([]interface{})
		return decCrit(arr[0]).And(decCrit(arr[1]))
	}
	if a, ok := m["or"]; ok {
		arr := a.([]interface{})
		return decCrit(arr[0]).Or(decCrit(arr[1]))
	}
	if c, ok := m["not"]; ok {
		return decCrit(c).Not()
	}
	panic(fmt.Sprintf("decCrit: %v", j))
}

func decQuery(j interface{}) *query.Query {
	m := j.(map[string]interface{})
	q := query.NewQuery(unhx(m["coll"].(string)))
	if c, ok := m["crit"]; ok && c != nil {
		q = q.Where(decCrit(c))
	}
	if s, ok := m["sort"]; ok && s != nil {
		opts := make([]query.SortOption, 0)
		for _, p := range s.([]interface{}) {
			pa := p.([]interface{})
			opts = append(opts, query.SortOption{Field: unhx(pa[0].(string)), Direction: asInt(pa[1])})
		}
		if len(opts) > 0 {
			q = q.Sort(opts...)
		}
	}
	if _, ok := m["sortDefault"]; ok {
		q = q.Sort()
	}
	if n, ok := m["skip"]; ok && n != nil {
		q = q.Skip(asInt(n))
	}
	if n, ok := m["limit"]; ok && n != nil {
		q = q.Limit(asInt(n))
	}
	return q
}
