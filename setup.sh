#!/bin/bash
# Builds the framework from files on disk only (offline).
set -e
export GOFLAGS=-mod=mod GOPROXY=off GOSUMDB=off GOTOOLCHAIN=local
cd /verif/harness && go build -tags verif -o bin/corr . && go run ./cmd/extract -repo /repo -out /verif/lean/Clover/Generated/Facts.lean && go run ./cmd/translate -repo /repo -out /verif/lean/Clover/Generated/Translated.lean
cd /verif/lean && lake build Clover driver
echo setup-ok
