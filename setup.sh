#!/bin/bash
# Builds the framework from files on disk only (offline).
set -e
export GOFLAGS=-mod=mod GOPROXY=off GOSUMDB=off GOTOOLCHAIN=local
cd /verif/lean && lake build Clover driver
cd /verif/harness && go build -tags verif -o bin/corr .
echo setup-ok
