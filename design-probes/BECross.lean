import BigEndianOrder  -- (was Pq.BE in the scratch project)
namespace OC

theorem be_nil_of_zero (v : Nat) : be 0 v = [] := rfl

theorem lexLt_nil_cons (b : UInt8) (bs : Bytes) : lexLt [] (b :: bs) = true := rfl

/-- shorter big-endian string against a longer one: it is smaller iff it is ≤ the longer one's prefix
    (a proper prefix sorts first) -/
theorem be_lt_cross (m k a b : Nat) (hk : 0 < k) (ha : a < 256^m) (hb : b < 256^(m+k)) :
    lexLt (be m a) (be (m+k) b) = true ↔ a ≤ b / 256^k := by
  induction m generalizing a b with
  | zero =>
    have : a = 0 := by simpa using ha
    subst this
    obtain ⟨k', rfl⟩ : ∃ k', k = k' + 1 := ⟨k - 1, by omega⟩
    simp [be, lexLt]
  | succ m ih =>
    have hP : 0 < 256^m := Nat.pow_pos (by decide)
    have hK : 0 < 256^k := Nat.pow_pos (by decide)
    have e1 : m + 1 + k = (m + k) + 1 := by omega
    rw [e1]
    simp only [be, lexLt, Bool.or_eq_true, Bool.and_eq_true, decide_eq_true_eq, beq_iff_eq]
    have hpow : 256^(m+k) = 256^m * 256^k := Nat.pow_add ..
    have ham : a % 256^m < 256^m := Nat.mod_lt _ hP
    have hbm : b % 256^(m+k) < 256^(m+k) := Nat.mod_lt _ (Nat.pow_pos (by decide))
    rw [ih _ _ ham hbm]
    have ha1 : a / 256^m < 256 := by
      rw [Nat.div_lt_iff_lt_mul hP]; rw [Nat.pow_succ] at ha; omega
    have hb1 : b / 256^(m+k) < 256 := by
      rw [Nat.div_lt_iff_lt_mul (Nat.pow_pos (by decide))]
      have : 256^(m+k+1) = 256^(m+k) * 256 := Nat.pow_succ ..
      rw [e1] at hb; omega
    have da := Nat.div_add_mod a (256^m)
    have db := Nat.div_add_mod b (256^(m+k))
    -- b / 256^k = qb * 256^m + rb / 256^k
    have hbk : b / 256^k = (b / 256^(m+k)) * 256^m + (b % 256^(m+k)) / 256^k := by
      conv => lhs; rw [← db]
      rw [hpow, Nat.mul_assoc, Nat.mul_comm (256^k) (b / (256^m * 256^k)), ← Nat.mul_assoc,
        Nat.mul_comm (256^m), Nat.mul_comm _ (256^k), Nat.mul_add_div hK]
    have hrb : (b % 256^(m+k)) / 256^k < 256^m := by
      rw [Nat.div_lt_iff_lt_mul hK, ← hpow]; exact hbm
    rw [hbk]
    generalize a / 256^m = qa at *
    generalize b / 256^(m+k) = qb at *
    generalize a % 256^m = ra at *
    generalize (b % 256^(m+k)) / 256^k = rbk at *
    generalize 256^m = P at *
    have e1 : (UInt8.ofNat qa < UInt8.ofNat qb) ↔ qa < qb := by
      rw [UInt8.lt_iff_toNat_lt]; simp [UInt8.toNat_ofNat']; omega
    have e2 : (UInt8.ofNat qa = UInt8.ofNat qb) ↔ qa = qb := by
      constructor
      · intro h; have := congrArg UInt8.toNat h; simp [UInt8.toNat_ofNat'] at this; omega
      · intro h; rw [h]
    rw [e1, e2]
    have hamul : a = P * qa + ra := da.symm
    constructor
    · rintro (h | ⟨h1, h2⟩)
      · have : (qa + 1) * P ≤ qb * P := Nat.mul_le_mul_right _ h
        rw [Nat.add_mul] at this
        rw [Nat.mul_comm] at hamul; omega
      · subst h1; rw [Nat.mul_comm] at hamul; omega
    · intro h
      by_cases hq : qa = qb
      · right; subst hq; refine ⟨rfl, ?_⟩; rw [Nat.mul_comm] at hamul; omega
      · left
        rcases Nat.lt_or_gt_of_ne hq with h1 | h1
        · exact h1
        · exfalso
          have : (qb + 1) * P ≤ qa * P := Nat.mul_le_mul_right _ h1
          rw [Nat.add_mul] at this
          rw [Nat.mul_comm] at hamul; omega

end OC
