import BECross
/-! calibration: order preservation of orderedcode's int64 code (closed form), non-negative half -/
namespace OC

/-- number of bytes of the code of a non-negative x < 2^63 -/
def lenFor (x : Nat) : Nat :=
  if x < 2^6 then 1 else if x < 2^13 then 2 else if x < 2^20 then 3 else if x < 2^27 then 4
  else if x < 2^34 then 5 else if x < 2^41 then 6 else if x < 2^48 then 7 else if x < 2^55 then 8
  else if x < 2^62 then 9 else 10

/-- n leading one bits, a zero bit, then the payload: n-byte big-endian of x + 2^(8n) − 2^(7n) -/
def encNonneg (x : Nat) : Bytes := be (lenFor x) (x + 2^(8 * lenFor x) - 2^(7 * lenFor x))

theorem lenFor_spec (x : Nat) (hx : x < 2^63) :
    1 ≤ lenFor x ∧ lenFor x ≤ 10 ∧ x < 2^(7 * lenFor x - 1) ∧ (lenFor x = 1 ∨ 2^(7 * (lenFor x - 1) - 1) ≤ x) := by
  unfold lenFor
  split
  · simp; omega
  · split
    · simp; omega
    · split
      · simp; omega
      · split
        · simp; omega
        · split
          · simp; omega
          · split
            · simp; omega
            · split
              · simp; omega
              · split
                · simp; omega
                · split
                  · simp; omega
                  · simp; omega

/-- same length: numeric order -/
theorem enc_lt_same (n x y : Nat) (hn1 : 1 ≤ n) (hn : n ≤ 10) (hx : x < 2^(7*n-1)) (hy : y < 2^(7*n-1))
    (h : x < y) : lexLt (be n (x + 2^(8*n) - 2^(7*n))) (be n (y + 2^(8*n) - 2^(7*n))) = true := by
  have hcases : n = 1 ∨ n = 2 ∨ n = 3 ∨ n = 4 ∨ n = 5 ∨ n = 6 ∨ n = 7 ∨ n = 8 ∨ n = 9 ∨ n = 10 := by omega
  rcases hcases with h | h | h | h | h | h | h | h | h | h <;> subst h <;>
    (rw [be_lt_iff _ _ _ (by simp at *; omega) (by simp at *; omega)]; simp at *; omega)

/-- different lengths: more leading one bits sort later -/
theorem enc_lt_cross (m n x y : Nat) (hm1 : 1 ≤ m) (hmn : m < n) (hn : n ≤ 10)
    (hx : x < 2^(7*m-1)) (hy : y < 2^(7*n-1)) :
    lexLt (be m (x + 2^(8*m) - 2^(7*m))) (be n (y + 2^(8*n) - 2^(7*n))) = true := by
  obtain ⟨k, rfl⟩ : ∃ k, n = m + k := ⟨n - m, by omega⟩
  have hk : 0 < k := by omega
  have hm : m = 1 ∨ m = 2 ∨ m = 3 ∨ m = 4 ∨ m = 5 ∨ m = 6 ∨ m = 7 ∨ m = 8 ∨ m = 9 := by omega
  have hkc : k = 1 ∨ k = 2 ∨ k = 3 ∨ k = 4 ∨ k = 5 ∨ k = 6 ∨ k = 7 ∨ k = 8 ∨ k = 9 := by omega
  rcases hm with h | h | h | h | h | h | h | h | h <;> subst h <;>
  rcases hkc with h | h | h | h | h | h | h | h | h <;> subst h <;>
    first
    | (exfalso; omega)
    | (rw [be_lt_cross _ _ _ _ (by omega) (by simp at *; omega) (by simp at *; omega)]; simp at *; omega)

theorem encNonneg_lt (x y : Nat) (hy : y < 2^63) (h : x < y) : lexLt (encNonneg x) (encNonneg y) = true := by
  have hx : x < 2^63 := by omega
  obtain ⟨a1, a2, a3, a4⟩ := lenFor_spec x hx
  obtain ⟨b1, b2, b3, b4⟩ := lenFor_spec y hy
  unfold encNonneg
  generalize lenFor x = m at *
  generalize lenFor y = n at *
  rcases Nat.lt_trichotomy m n with hlt | heq | hgt
  · exact enc_lt_cross m n x y a1 hlt b2 a3 b3
  · subst heq; exact enc_lt_same m x y a1 a2 a3 b3 h
  · -- a longer code for the smaller number is impossible
    exfalso
    rcases a4 with a4 | a4
    · omega
    · have : 2^(7*n-1) ≤ 2^(7*(m-1)-1) := Nat.pow_le_pow_right (by decide) (by omega)
      omega

end OC
#print axioms OC.encNonneg_lt
