# Design-round probe (not part of the framework): exhaustive check of a transcription of
# index.Range.IsEmpty / Intersect and rangeIndex.IterateRange over a tiny total order (0 = nil).
# See DESIGN.md section 7 for what it showed (F8, F9, F26).
import itertools, bisect
NIL = 0
def cmp(a, b): return (a > b) - (a < b)
class R:
    def __init__(s, S, E, SI, EI): s.S, s.E, s.SI, s.EI = S, E, SI, EI
    def isnil(s): return s.S == NIL and s.E == NIL and s.SI and s.EI
    def isempty(s):
        if (s.S == NIL and not s.SI and s.E != NIL) or (s.E == NIL and not s.EI and s.S != NIL): return False
        r = cmp(s.S, s.E)
        return r > 0 or (r == 0 and not s.SI and not s.EI)
    def inter(r, r2):
        i = R(r.S, r.E, r.SI, r.EI)
        res = cmp(r2.S, i.S)
        if res > 0: i.S, i.SI = r2.S, r2.SI
        elif res == 0: i.SI = i.SI and r2.SI
        elif i.S == NIL: i.S, i.SI = r2.S, r2.SI
        res = cmp(r2.E, i.E)
        if res < 0: i.E, i.EI = r2.E, r2.EI
        elif res == 0: i.EI = i.EI and r2.EI
        elif i.E == NIL: i.E, i.EI = r2.E, r2.EI
        return i
    def __repr__(s): return f"{'[' if s.SI else '('}{s.S},{s.E}{']' if s.EI else ')'}"
def iterate_range(entries, r, reverse):
    if r.isempty(): return []
    startKey = r.S if (r.isnil() or r.S != NIL) else None
    endKey = r.E if (r.isnil() or r.E != NIL) else None
    seek = endKey if reverse else startKey
    n = len(entries)
    if not reverse:
        pos = 0 if seek is None else bisect.bisect_left(entries, (seek, -1)); step = 1
    else:
        pos = n - 1 if seek is None else bisect.bisect_left(entries, (seek, -1)) - 1; step = -1
    valid = lambda p: 0 <= p < n
    if not reverse:
        if r.S != NIL and not r.SI:
            while valid(pos) and entries[pos][0] == startKey: pos += step
    else:
        if r.E != NIL and not r.EI:
            while valid(pos) and entries[pos][0] == endKey: pos += step
    out = []
    while valid(pos):
        v, i = entries[pos]
        if not reverse:
            if r.E != NIL or r.isnil():
                c = cmp(v, endKey)
                if c > 0 or (c == 0 and not r.EI): break
        else:
            if r.S != NIL or r.isnil():
                c = cmp(v, startKey)
                if c < 0 or (c == 0 and not r.SI): break
        out.append((v, i)); pos += step
    return out
def intended(entries, r, reverse):
    def inr(v):
        if r.isnil(): return v == NIL
        lo = True if r.S == NIL else (v > r.S or (v == r.S and r.SI))
        hi = True if r.E == NIL else (v < r.E or (v == r.E and r.EI))
        return lo and hi
    res = [e for e in entries if inr(e[0])]
    return res[::-1] if reverse else res
if __name__ == "__main__":
    entries = sorted((v, i) for i, v in enumerate([0, 0, 1, 1, 2, 2, 3, 3]))
    bad = {}
    for S, E, SI, EI in itertools.product(range(4), range(4), (0, 1), (0, 1)):
        r = R(S, E, SI, EI)
        if not (S != NIL or E != NIL or r.isnil()): continue
        for rev in (False, True):
            got, exp = iterate_range(entries, r, rev), intended(entries, r, rev)
            if got != exp:
                bad.setdefault((rev, bool(EI), E == NIL, S == NIL), []).append(r)
    for k, v in sorted(bad.items()): print("reverse=%s EI=%s Enil=%s Snil=%s" % k, len(v), v[:3])
